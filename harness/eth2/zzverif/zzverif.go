// Package zzverif is the harness API of the /verif symbolic executor (gosym).
// It exists only as an overlay: it is never written into the repository.
// The engine intercepts every function here by name; the bodies below are the
// native implementation used when a harness is replayed as an ordinary Go test.
package zzverif

import (
	"context"
	"time"
	blsu "github.com/protolambda/bls12-381-util"
	"crypto/sha256"
	"encoding/json"
	"fmt"
	"math/big"
	"os"
	"reflect"
	"strconv"
	"strings"
)

type ndRec struct {
	Name  string `json:"name"`
	Kind  string `json:"kind"`
	W     int    `json:"w"`
	Value string `json:"value"`
}

var (
	replay   []ndRec
	pos      int
	Failures []string
	loaded   bool
)

// LoadReplay reads a replay vector (the "nondet" list of an outcome in a gosym result).
func LoadReplay(path string) error {
	b, err := os.ReadFile(path)
	if err != nil {
		return err
	}
	var doc struct {
		Nondet []ndRec `json:"nondet"`
	}
	if err := json.Unmarshal(b, &doc); err != nil {
		return err
	}
	replay, pos, Failures, loaded = doc.Nondet, 0, nil, true
	return nil
}

func next(w int) *big.Int {
	if !loaded {
		if p := os.Getenv("VERIF_REPLAY"); p != "" {
			if err := LoadReplay(p); err != nil {
				panic(err)
			}
		}
		loaded = true
	}
	if pos >= len(replay) {
		pos++
		return new(big.Int)
	}
	r := replay[pos]
	pos++
	if r.W != w {
		panic(fmt.Sprintf("zzverif: replay vector misaligned at %d: have width %d (%s), want %d", pos-1, r.W, r.Kind, w))
	}
	v, ok := new(big.Int).SetString(r.Value, 16)
	if !ok {
		panic("zzverif: bad replay value " + r.Value)
	}
	return v
}

func NondetU64() uint64 { return next(64).Uint64() }
func NondetU32() uint32 { return uint32(next(32).Uint64()) }
func NondetU16() uint16 { return uint16(next(16).Uint64()) }
func NondetU8() uint8   { return uint8(next(8).Uint64()) }
func NondetBool() bool  { return next(1).Uint64() == 1 }

func fill(out []byte) {
	v := next(8 * len(out))
	v.FillBytes(out)
}
func NondetBytes32() (out [32]byte) { fill(out[:]); return }
func NondetBytes48() (out [48]byte) { fill(out[:]); return }
func NondetBytes96() (out [96]byte) { fill(out[:]); return }
func NondetBytes20() (out [20]byte) { fill(out[:]); return }
func NondetBytes4() (out [4]byte)   { fill(out[:]); return }
func NondetBytes(n int) []byte {
	out := make([]byte, n)
	if n > 0 {
		fill(out)
	}
	return out
}

type AssumeFailed struct{}

// Assume restricts the inputs considered. Natively a violated assumption aborts the replay.
func Assume(c bool) {
	if !c {
		panic(AssumeFailed{})
	}
}

// Assert states an obligation. Natively a failure is recorded (and printed) and execution continues.
func Assert(c bool, label string) {
	if !c {
		Failures = append(Failures, label)
		fmt.Println("VERIF-ASSERT-FAIL " + label)
	}
}

// Reach marks a point whose reachability is witnessed by the engine (vacuity guard).
func Reach(label string) {}

// Choose returns a value in [0,n); the engine explores every one.
func Choose(n int) int { return int(next(64).Uint64()) }

// Concrete forces the engine to case-split x into concrete values.
func Concrete(x uint64) uint64 { return x }

func Ite(c bool, a, b uint64) uint64 {
	if c {
		return a
	}
	return b
}

func Tier() int {
	if os.Getenv("VERIF_TIER") == "thorough" {
		return 1
	}
	return 0
}

// Param returns a concrete bound supplied by the job (VERIF_PARAMS=k=v,k=v natively).
func Param(name string, def int) int {
	for _, kv := range strings.Split(os.Getenv("VERIF_PARAMS"), ",") {
		p := strings.SplitN(kv, "=", 2)
		if len(p) == 2 && p[0] == name {
			v, _ := strconv.Atoi(p[1])
			return v
		}
	}
	return def
}

func Note(s string) {}

// Hash is SHA-256 natively and an uninterpreted function of its input in the engine.
func Hash(in []byte) [32]byte { return sha256.Sum256(in) }

func LenAny(x interface{}) int { return reflect.ValueOf(x).Len() }
func SwapAny(x interface{}, i, j int) {
	reflect.Swapper(x)(i, j)
}

// SortSliceStub is the engine's replacement for sort.Slice (insertion sort through the real less closure).
func SortSliceStub(x interface{}, less func(i, j int) bool) {
	n := LenAny(x)
	for i := 1; i < n; i++ {
		for j := i; j > 0 && less(j, j-1); j-- {
			SwapAny(x, j, j-1)
		}
	}
}

// StepBudget cuts the current path after n more interpreter steps (an unwinding assumption: what lies
// beyond is reported as outside the bound, never as success of an assertion). No-op natively.
func StepBudget(n int) {}

// UseOverrides activates the harness-package functions VerifOverride_<group>__<name> (each paired with a
// string constant VerifOverrideTarget_<group>__<name> naming the replaced function) for the rest of the path.
// Natively overrides do not exist: harnesses that need them are replayed by other means.
func UseOverrides(group string) {}

// MustReturnWithin(n) obliges the code that follows to reach MustReturnWithin(0) within n interpreter steps;
// otherwise the engine reports non-termination (a violation, replayed natively as a test timeout). No-op natively.
func MustReturnWithin(n int) {}

// SharedBegin marks every object allocated so far as shared between goroutines and starts recording, for each
// access to such an object, which locks are held (lockset analysis, engine only). SharedEnd stops recording.
func SharedBegin() {}
func SharedEnd()   {}

// OnUnlock registers f to run (in the calling goroutine, with the lock just released) after every mutex unlock:
// the engine's way to interleave another call between the critical sections of the call under test. nil clears.
func OnUnlock(f func()) {}

// LocksHeld is the number of mutexes the (single) goroutine holds in the engine's lock model; 0 natively.
func LocksHeld() int { return 0 }

// BLS oracles. In the engine these are the uninterpreted functions that also stand in for the blsu entry points
// the implementation calls (same function, same argument terms), so a reference verdict can say "the signature
// verifies under this key over this message" without any cryptography. Natively they run the real checks.
func BLSPubkeyValid(pub [48]byte) bool {
	var p blsu.Pubkey
	return p.Deserialize(&pub) == nil
}
func BLSSigValid(sig [96]byte) bool {
	var s blsu.Signature
	return s.Deserialize(&sig) == nil
}
func BLSVerify(pub [48]byte, msg []byte, sig [96]byte) bool {
	var p blsu.Pubkey
	var s blsu.Signature
	if p.Deserialize(&pub) != nil || s.Deserialize(&sig) != nil {
		return false
	}
	return blsu.Verify(&p, msg, &s)
}
func BLSFastAggregateVerify(pubs [][48]byte, msg []byte, sig [96]byte) bool {
	var s blsu.Signature
	if s.Deserialize(&sig) != nil {
		return false
	}
	ps := make([]*blsu.Pubkey, len(pubs))
	for i := range pubs {
		ps[i] = new(blsu.Pubkey)
		if ps[i].Deserialize(&pubs[i]) != nil {
			return false
		}
	}
	return blsu.FastAggregateVerify(ps, msg, &s)
}

// Opaque64 is an uninterpreted function of x named by tag (engine); natively it is not available (harnesses that use
// it are model-only).
func Opaque64(tag string, x uint64) uint64 { panic("zzverif.Opaque64 has no native meaning") }

// Ctx*Stub are the engine's replacements for context.WithTimeout / WithDeadline / WithCancel: the derived context is
// the parent itself (a deadline never fires by itself; cancellation of the parent stays visible), cancel is a no-op.
// Natively the real context package is used.
func CtxWithTimeoutStub(parent context.Context, d time.Duration) (context.Context, context.CancelFunc) {
	return parent, func() {}
}
func CtxWithDeadlineStub(parent context.Context, t time.Time) (context.Context, context.CancelFunc) {
	return parent, func() {}
}
func CtxWithCancelStub(parent context.Context) (context.Context, context.CancelFunc) {
	return parent, func() {}
}
